"""C03 registry entry."""
import os, importlib.util
_spec = importlib.util.spec_from_file_location("c01", os.path.join(os.path.dirname(os.path.abspath(__file__)), "C01.py"))
_m = importlib.util.module_from_spec(_spec); _spec.loader.exec_module(_m)

PROP = {
    "id": "C03",
    "level": "fault_enumeration",
    "technique": "property-based testing (rapid) over (configuration, stop moment) pairs against the real command line in child processes (SIGTERM at origin-side request events and at verifhook event points), plus stop events in the virtual-time pipeline harness",
    "level_text": ("Each case spawns the real Zeno CLI (test binary re-executed, cmd.Run) in a private job directory against origin servers on 127.0.0.2 (optionally through a SOCKS5 proxy) under a generated "
                   "configuration (proxy|direct, sync|async WARC, rate limiter on|off, workers 1/3/8, WARC pool 1/2, seencheck on|off, max-retry 0/1) and delivers a graceful stop at a generated moment: "
                   "arrival / mid-body / completion of the k-th request (the origin stalls so the stop lands mid-fetch), the n-th hit of a named pipeline event (verifhook point: between stages, around finish, queue claim), "
                   "while paused (pause injected at an event), or idle after the drain. Oracle: the process exits with status 0, no panic/fatal error, and afterwards the warcs directory has no .open file and every file "
                   "parses to EOF as complete gzip members / WARC records with an independent reader. The sim facet (C03/sim) adds stops at request boundaries under virtual time (Stop must return within a virtual hour, nothing requested afterwards)."),
    "level_note": "Moments are sampled at request and hook boundaries, not every instruction. A hang is declared only when the child neither exits nor makes progress (origin log, hook log) for 45 s, 90 s after SIGTERM (max-retry <= 1 so legitimate sleeps are <= 2 s + 1 s close).",
    "rule": "rapid-generated (configuration, moment) pairs, one child process each; non-trivial = the stop landed while a seed was in flight or while paused; distinct = distinct case JSON",
    "assumptions": ["origin servers and proxy are in the parent process on loopback addresses"],
    "units": [
        {"name": "proc03", "pkg": "./internal/pkg/verifproc", "run": "^TestVerif_C03_Proc$", "kind": "rapid",
         "facets": ["C03/proc"], "checks": (3, 40), "shards": (12, 16), "timeout": (600, 3000), "shrinktime": (20, 60)},
        dict(_m.SIM_UNIT),
        # the disk watcher is the first thing stopPipeline() stops: its stop must return in every state, also while the
        # watcher's own low-disk pause is in force (real WatchDiskSpace under virtual time, shared with C18/watcher)
        {"name": "c03watch", "pkg": "./internal/pkg/controler/watchers", "run": "^TestVerif_C18_Watcher$", "kind": "rapid", "toolchain": "go126",
         "facets": ["C03/watcher-stop"], "checks": (1500, 20000), "shards": (2, 8), "timeout": (600, 3000)},
    ],
}
