"""C07 registry entry (see lib/registry.py for the field reference)."""

_PKG = "./internal/pkg/postprocessor"

PROP = {
    "id": "C07",
    "level": "exploration",
    "technique": "property-based testing (rapid): generated HTML documents with references planted by construction (unique tokens) pushed through the real post-processing stage body and the next pass' URL normalisation; expectations from an independent RFC 3986 resolver",
    "level_text": "Generated-input search with shrinking over documents (element x attribute x quoting x reference form x nesting x decoys) and settings (disable-html-tag, capture-alternate-pages, disable-assets-capture, hops): every planted reference the statement obliges must be among the URLs the next pipeline pass would request (assets) or among the outlinks returned (anchors), compared on scheme/authority/path exactly and on decoded ordered query pairs. Exploration, not proof: the document space is infinite and sampled.",
    "level_note": "In-package facets only: 'is requested' means NormalizeURL(child, page).String() of the children postprocessItem creates (the literal fetch is the simulated-network facet's business); scope, seencheck, the preprocessor's empty-path filter and depth limits are not exercised here. Trusts the harness's RFC 3986 resolver (self-tested against net/url by C09) on the well-formed reference grammar.",
    "rule": ("rapid-generated (page URL, settings, HTML document without <base>) triples; the document plants well-formed references "
             "(absolute, scheme-relative, path-absolute, path-relative with dot segments, query-only), each with a unique token, in img src/srcset, "
             "script src, link href (10 rel values), source src/srcset inside picture/video/audio, video/audio src, <style> url(), style-attribute url() "
             "and a href, in double/single/unquoted attribute quoting and bare/single/double url() quoting, at nesting depth 0-4, between decoys; "
             "a case is non-trivial when the document has >= 3 distinct (element/attribute, quoting, reference form) combinations among the references "
             "the facet is responsible for and at least 3 of them were actually checked; distinct = distinct combination set (64-bit hash) per facet"),
    "assumptions": [
        "the URL that would be requested for an asset is URL.String() after preprocessor.NormalizeURL(child, page), for an outlink the Raw handed over or its NormalizeURL(outlink, nil) form",
        "resolution oracle = own RFC 3986 resolver on the well-formed grammar (forms where RFC 3986 and WHATWG disagree are not generated, list in verifgen/html.go)",
        "extra assets/outlinks are never an alarm; absence of exempted references is never asserted",
    ],
    "units": [
        # ~350 documents/s per process (goquery parse + xurls regexes dominate)
        {"name": "c07", "pkg": _PKG, "run": "^TestVerif_C07_(Assets|Outlinks|Config)$", "kind": "rapid",
         "facets": ["C07/assets", "C07/outlinks", "C07/config"],
         "checks": (4000, 20000), "shards": (2, 16), "timeout": (600, 3000)},
        # separate generator classes (white-space padding, srcset descriptor white space): while their findings are open
        # the affected references are excluded and counted, what is left (padding around srcset values) is checked
        {"name": "c07ws", "pkg": _PKG, "run": "^TestVerif_C07_(PaddedAssets|PaddedOutlinks|SrcsetWS)$", "kind": "rapid",
         "facets": ["C07/padded-assets", "C07/padded-outlinks", "C07/srcset-ws"],
         "checks": (800, 5000), "shards": (1, 4), "timeout": (600, 3000)},
        # requisites that share a file name and differ in directory / host: each one is its own resource
        {"name": "c07same", "pkg": _PKG, "run": "^TestVerif_C07_(SameName|RedirectedPage)$", "kind": "rapid",
         "facets": ["C07/same-name", "C07/redirected-page"],
         "checks": (1500, 8000), "shards": (1, 4), "timeout": (600, 3000)},
    ] + [
        {"name": "c07kf-" + name.lower(), "pkg": _PKG, "run": "^TestVerifKF_C07_" + name + "$", "kind": "kf", "finding": key,
         "facets": ["C07/kf-" + key[4:]], "checks": (1, 1), "shards": (1, 1), "timeout": (120, 120)}
        for name, key in [
            ("StyleSchemeRelative", "C07-style-scheme-relative-http"),
            ("PaddedAHref", "C07-padded-a-href"),
            ("PaddedAssetAttribute", "C07-padded-asset-attribute"),
            ("PaddedCSSURL", "C07-padded-css-url"),
            ("StyleAttrPercent", "C07-style-attr-percent"),
            ("NoOutlinksWhenAssetsOff", "C07-no-outlinks-when-assets-off"),
            ("SrcsetDescriptorWhitespace", "C07-srcset-descriptor-whitespace"),
        ]
    ],
}
