"""C08 registry entry."""

PROP = {
    "id": "C08",
    "level": "exploration",
    "technique": "model-based property testing (rapid) of both seen-stores against a reference store keyed by the URL's decoded components: the real LevelDB seencheck (sequential and completed-before concurrent histories), hq.SeencheckItem against an in-memory fake crawl HQ, the real preprocess() with either store switched on; plus the whole real pipeline on a simulated network",
    "level_text": ("Histories of seed trees (seed alone; redirect target; 1..4 assets; redirect target of an asset; assets of an asset) whose URLs are uses of a pool of 1..4 URLs - mostly near-misses of one another "
                   "(parameters swapped, repeated, dropped, one value changed) with 0..5 query parameters - are built with models.NewItem/AddChild as the pipeline does. Every use is a fresh models.URL and a freshly "
                   "drawn spelling of the same parameters (%20 or +, lower-case hex, literal sub-delimiters, escaped unreserved characters, value-less keys), so the canonical string is recomputed each time. "
                   "Local store: real LevelDB in a scratch directory, unique host namespace per case; reference store keyed by the decoded components (not URL.String()): a node checked after a completed record of the "
                   "same URL must come back Seen (a seed / redirect target after asset-only is free), a node comes back Seen only if the reference holds it; concurrent variant: phases of 1..4 concurrent "
                   "SeencheckItem calls, records of earlier phases must be honoured, and of the concurrent checks of a URL nobody recorded before at least one passes. Crawl HQ: the real gocrawlhq client over an "
                   "in-memory RoundTripper that returns the subset it has not seen (200, 204 or 500): returned => Fresh, asked and not returned => Seen, never asked (seed) or HQ error => not Seen. "
                   "preprocess(): the same histories with raw (un-normalised) working-depth nodes through the real normalise / dedupe / seencheck / request-building sequence: a request is built iff the node was not "
                   "skipped, a skipped node never carries a request, and no two non-seed nodes of one tree leave with requests for the same URL."),
    "level_note": "Exploration. The harness's identity (scheme, host, port, path, decoded parameter list in order) coincides with Zeno's canonical string on the generated domain: well-formed URLs without literal ';' or empty keys (C09's domain). The fake HQ models the documented seencheck contract (echo of the unseen subset); the real service is not available offline. Truly concurrent checks of the same new URL may both pass (the statement allows it).",
    "rule": ("rapid-generated (URL pool, history of trees); non-trivial = a history with >= 1 repeat that must be skipped and >= 1 promotion or >= 2 new URLs (local), >= 1 honoured earlier record and >= 1 URL contended "
             "inside a phase (concurrent), >= 1 URL returned and >= 1 not returned by HQ (hq); distinct = distinct case JSON (64-bit hash)"),
    "assumptions": [
        "URL texts handed to the stores are fixpoints of the WHATWG serialisation, i.e. what NormalizeURL leaves in URL.Raw (checked with goada inside the harness)",
        "crawl HQ answers a seencheck with the unseen subset of the submitted URLs, values echoed verbatim (gocrawlhq client contract)",
        "a fresh LevelDB per test process; URL namespaces are unique per executed case",
    ],
    "units": [
        {"name": "c08-local", "pkg": "./internal/pkg/preprocessor/seencheck", "run": "^TestVerif_C08_", "kind": "rapid",
         "facets": ["C08/local", "C08/concurrent"],
         "checks": (8000, 120000), "shards": (2, 16), "timeout": (600, 3000)},
        {"name": "c08-hq", "pkg": "./internal/pkg/source/hq", "run": "^TestVerif_C08_", "kind": "rapid",
         "facets": ["C08/hq"],
         "checks": (15000, 200000), "shards": (2, 16), "timeout": (600, 3000)},
        {"name": "c08-pre", "pkg": "./internal/pkg/preprocessor", "run": "^TestVerif_C08_", "kind": "rapid",
         "facets": ["C08/preprocess-local", "C08/preprocess-hq"],
         "checks": (8000, 120000), "shards": (2, 16), "timeout": (600, 3000)},
        # strict sub-checks of the open findings (run only while the finding is listed as open)
        {"name": "c08-kf-hq", "pkg": "./internal/pkg/source/hq", "run": "^TestVerifKF_C08_HQCompare$", "kind": "kf",
         "finding": "C08-hq-seencheck-compares-canonical-with-raw", "facets": [], "checks": (1, 1), "shards": (1, 1), "timeout": (120, 120)},
        {"name": "c08-kf-hq-pipeline", "pkg": "./internal/pkg/preprocessor", "run": "^TestVerifKF_C08_HQCompareInPreprocess$", "kind": "kf",
         "finding": "C08-hq-seencheck-compares-canonical-with-raw", "facets": [], "checks": (1, 1), "shards": (1, 1), "timeout": (120, 120)},
        {"name": "c08-kf-faileddup", "pkg": "./internal/pkg/verifsim", "run": "^TestVerifKF_Sim_FailedNodeRefetched$", "kind": "kf", "toolchain": "go126",
         "finding": "C08-failed-node-loses-to-fresh-duplicate", "facets": [], "checks": (1, 1), "shards": (1, 1), "timeout": (300, 300)},
    ],
}

import os, importlib.util
_spec = importlib.util.spec_from_file_location("c01", os.path.join(os.path.dirname(os.path.abspath(__file__)), "C01.py"))
_m = importlib.util.module_from_spec(_spec); _spec.loader.exec_module(_m)
PROP["units"].append(dict(_m.SIM_UNIT))
