"""C16 registry entry."""

PROP = {
    "id": "C16",
    "level": "exploration",
    "technique": "property-based testing (rapid): the whole real pipeline incl. the real WARC-writing HTTP client against in-process origin servers, N then 4N generated seeds in one lifecycle, idle footprint compared; plus in-package stateful testing of the per-host limiter table",
    "level_text": ("C16/net: one lifecycle of the five real stages (synchronous WARC mode, real rate limiter in half of the cases, 10..60 origin hosts on 127.0.0.N): N generated seeds (30..150), "
                   "quiescence, footprint; 4N more seeds, quiescence, footprint. The diet mixes pages with assets, bodies > 2 MiB (spooled to disk by ProcessBody and by the record writer), "
                   "429/5xx/408 with retries, fail-then-ok, truncated bodies, dropped connections, corrupt gzip bodies, redirect chains, identical payloads. At both quiescent points: the "
                   "reactor tracks no seed and holds no token; no zeno-*/warc-* spool file in the WARC temp dir, the job dir or os.TempDir(); no item reachable from a finish message holds a body; the limiter table is "
                   "within workers x max-concurrent-assets; every connection has delivered or dropped its WARC records (library wait group = 0). After 4N vs after N (never against a cold start), "
                   "each once stable for 5 consecutive samples: runtime.NumGoroutine and the number of entries of /proc/self/fd are equal (more after 4N is declared a leak only when it persists, unchanged, for the whole no-progress window; fewer after 4N means the sample after N caught something on its way out and is noted, not failed). "
                   "C16/table: generated operation lists (Wait / AdjustOnFailure / OnSuccess over up to 6 x bound + 3 hosts, hot hosts and a long tail, 1..8 concurrent callers) on the real BucketManager: "
                   "len(buckets) <= maxBuckets after every operation."),
    "level_note": "Real time and real sockets; keep-alives are disabled by the WARC client (one connection per request) and CloseIdleConnections is called before sampling; origin connections are closed by the origins. Memory (heap) growth is not measured: the statement names goroutines, descriptors, bodies, temporary files, state entries and limiter buckets.",
    "rule": "C16/net: one evaluation = one N / 4N pair; non-trivial = the run contained >= 1 body > 2 MiB spooled to disk and >= 1 failure (HTTP 429/5xx/408 or transport error); distinct = distinct (N, settings, request mix). C16/table: non-trivial = more distinct hosts than the bound (eviction needed); distinct = distinct case JSON",
    "assumptions": ["origins on 127.0.0.2+ (loopback only)", "stage once-guards are reset between lifecycles by overlay-only VerifReset hooks"],
    "units": [
        {"name": "c16net", "pkg": "./internal/pkg/verifnet", "run": "^TestVerif_C16_Net$", "kind": "rapid", "toolchain": "go124",
         "facets": ["C16/net"], "checks": (1, 2), "shards": (2, 8), "shrinktime": (1, 1), "timeout": (600, 2400), "verbose": True,
         "env": {"VERIF_N_C16_NMIN": (30, 70), "VERIF_N_C16_NMAX": (60, 150)}},
        # ProcessBody gives back what it took, whatever the response does (sizes around the spool thresholds, read errors at
        # any offset, a connection refusing a read deadline at any call)
        {"name": "c16body", "pkg": "./internal/pkg/archiver", "run": "^TestVerif_C16_Body$", "kind": "rapid",
         "facets": ["C16/body"], "checks": (1500, 20000), "shards": (2, 8), "timeout": (600, 3000)},
        {"name": "c16table", "pkg": "./internal/pkg/archiver/ratelimiter", "run": "^TestVerif_C16_Table$", "kind": "rapid", "toolchain": "go126",
         "facets": ["C16/table"], "checks": (3000, 40000), "shards": (2, 8), "timeout": (600, 2400)},
        {"name": "c16kf1", "pkg": "./internal/pkg/verifnet", "run": "^TestVerifKF_C16_CorruptGzipLeaksConnection$", "kind": "kf", "toolchain": "go124",
         "finding": "C16-corrupt-gzip-leaks-connection", "facets": [], "checks": (1, 1), "shards": (1, 1), "verbose": True},
        {"name": "c16kf2", "pkg": "./internal/pkg/verifnet", "run": "^TestVerifKF_C16_DiscardedTruncatedLeaksSpoolFile$", "kind": "kf", "toolchain": "go124",
         "finding": "C16-discarded-truncated-response-leaks-spool-file", "facets": [], "checks": (1, 1), "shards": (1, 1), "verbose": True},
    ],
}

# "MarkAsFinished deletes the state entry": after every simulated crawl - including seeds that are refused, excluded or
# fail for good - the reactor tracks nothing and holds no token (simulated-network pipeline harness, shared with C01)
import os, importlib.util
_spec = importlib.util.spec_from_file_location("c01", os.path.join(os.path.dirname(os.path.abspath(__file__)), "C01.py"))
_m = importlib.util.module_from_spec(_spec); _spec.loader.exec_module(_m)
PROP["units"].append(dict(_m.SIM_UNIT))
