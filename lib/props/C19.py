"""C19 registry entry (see lib/registry.py for the field reference)."""

PROP = {
    "id": "C19",
    "level": "exploration",
    "technique": "property-based testing (rapid): planted-URL document generators (JSON, XML/RSS/Atom/sitemap, M3U8) against the real extractors and the real post-processing dispatch; model-based test of the S3 listing walk against a reference bucket server",
    "level_text": "Generated-input search with shrinking. Documents are rendered from plain-data models in which every URL is planted with a unique token, so the expected set is known without parsing; the extractor output must contain every planted URL text, the post-processing dispatch must turn URLs whose last path segment has an extension into child assets and the others into outlinks (hop limit permitting). Buckets (prefix trees, zero-size objects, page size 1..20, marker / continuation-token / delimiter) are served by a model S3 and walked through the real extractor.S3 until no new link appears; the set of object URLs reached must equal the model's non-zero-size keys and the number of listing requests is bounded by pages+prefixes+2. Exploration, not proof.",
    "level_note": "Trusts the harness's renderers (JSON/XML/M3U8 text from the models) and the model S3 server (ListObjects/ListObjectsV2 semantics: UTF-8 binary key order, CommonPrefixes roll-up counted against the page size, opaque continuation tokens = start-after positions). Third-party parsers (encoding/json, encoding/xml, grafov/m3u8, fasturl, xurls) are exercised only through Zeno's call sites. Narrowings of the generators are documented next to them in verifgen/docs.go.",
    "rule": ("rapid-generated documents with URLs planted by construction: JSON (nesting to depth 8, arrays/objects, decoy strings, JSON-in-string, escape styles, 4 layouts), "
             "XML in generic/RSS/Atom/sitemap/sitemapindex vocabularies (attributes, text, CDATA, prose, escaped HTML, entities, namespaces, pretty-printing, CRLF), "
             "M3U8 media and master playlists (variants, I-frame variants, EXT-X-MEDIA renditions in varying order, relative/absolute URIs), S3 buckets x page size x API version x delimiter; "
             "a document is non-trivial with nesting >= 3 or >= 2 URL-bearing constructs, a bucket when it needs >= 2 pages or has >= 1 common prefix; distinct = distinct case JSON (64-bit hash) per facet"),
    "assumptions": [
        "the extractors receive what archiver.ProcessBody hands them: response headers, MIME type detected from the first 2 KiB, body in a spooled temp file",
        "planted URLs are ASCII, lower-case scheme, RFC 3986; URLs placed in running text use a conservative alphabet and are white-space/quote delimited",
        "the model S3 treats continuation tokens as opaque start-after positions (not bound to the prefix of the request that issued them)",
    ],
    "units": [
        {"name": "c19-extractor", "pkg": "./internal/pkg/postprocessor/extractor", "run": "^TestVerif_C19_", "kind": "rapid",
         "facets": ["C19/json", "C19/xml", "C19/m3u8", "C19/s3walk", "C19/ext-rule"],
         "checks": (6000, 30000), "shards": (2, 16), "timeout": (600, 1500)},
        {"name": "c19-dispatch", "pkg": "./internal/pkg/postprocessor", "run": "^TestVerif_C19_", "kind": "rapid",
         "facets": ["C19/classification", "C19/s3-dispatch"],
         "checks": (4000, 18000), "shards": (2, 16), "timeout": (600, 1500)},
        # strict sub-checks of the open findings (run only while the finding is listed as open)
        {"name": "c19-kf-json", "pkg": "./internal/pkg/postprocessor/extractor", "run": "^TestVerifKF_C19_json_rfc3986_url$", "kind": "kf",
         "finding": "C19-json-fasturl-rejects-rfc3986-url", "facets": [], "checks": (1, 1), "shards": (1, 1), "timeout": (120, 120)},
        {"name": "c19-kf-xml", "pkg": "./internal/pkg/postprocessor/extractor", "run": "^TestVerifKF_C19_xml_url_first$", "kind": "kf",
         "finding": "C19-xml-chardata-starting-with-url-taken-whole", "facets": [], "checks": (1, 1), "shards": (1, 1), "timeout": (120, 120)},
        {"name": "c19-kf-s3", "pkg": "./internal/pkg/postprocessor/extractor", "run": "^TestVerifKF_C19_s3v2_mixed_page$", "kind": "kf",
         "finding": "C19-s3v2-contents-dropped-with-commonprefixes", "facets": [], "checks": (1, 1), "shards": (1, 1), "timeout": (120, 120)},
        {"name": "c19-kf-ext", "pkg": "./internal/pkg/postprocessor", "run": "^TestVerifKF_C19_ext_root$", "kind": "kf",
         "finding": "C19-hasfileextension-url-without-path", "facets": [], "checks": (1, 1), "shards": (1, 1), "timeout": (120, 120)},
        {"name": "c19-kf-m3u8body", "pkg": "./internal/pkg/postprocessor", "run": "^TestVerifKF_C19_m3u8_body$", "kind": "kf",
         "finding": "C19-m3u8-body-discarded-by-processbody", "facets": [], "checks": (1, 1), "shards": (1, 1), "timeout": (120, 120)},
    ],
}
