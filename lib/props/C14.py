"""C14 registry entry."""

PROP = {
    "id": "C14",
    "level": "exploration",
    "technique": "stateful property testing (rapid) + exhaustive short call sequences of the real pause manager under virtual time (testing/synctest), with model workers following the stage-worker protocol; deadlock decided by the virtual clock",
    "level_text": ("Generated call lists over {pause, resume, concurrent bursts of pause/resume, offer work, long-running item, advance time, worker exit, stop} with 0..6 subscribed workers run "
                   "against the real pause manager. At every quiescent point with no call in flight: paused <=> no live worker is ready to take work / no worker stays parked when not paused; "
                   "work offered while paused is never taken; after a virtual hour no Pause/Resume call is still blocked; after shutdown every worker has exited. Sequences up to length 5 (6 thorough) "
                   "over a 6-letter alphabet with 0..2 workers are enumerated exhaustively."),
    "level_note": "Subscribers are model workers that mirror the worker loop of the four stages (select on ctx / PauseCh / work; on pause block sending on ResumeCh or ctx; deferred Unsubscribe); the real stage workers are exercised by the pipeline harnesses (C14/pipeline, C03). Subscribing after a pause is not generated (stage workers subscribe once at start-up).",
    "rule": "rapid-generated op lists (1..16 ops, 0..6 workers) and all sequences up to the enumeration bound; non-trivial = history with an unmatched or repeated call, a concurrent burst, or a worker exit / stop while paused; distinct = distinct case JSON",
    "assumptions": ["virtual time (testing/synctest, go1.26.8)"],
    "units": [
        {"name": "c14", "pkg": "./internal/pkg/controler/pause", "run": "^TestVerif_C14_(Manager|ExitRaceStress)$", "kind": "rapid", "toolchain": "go126",
         "facets": ["C14/manager", "C14/exit-race-stress"], "checks": (20000, 200000), "shards": (4, 16), "timeout": (600, 3000)},
        {"name": "c14enum", "pkg": "./internal/pkg/controler/pause", "run": "^TestVerif_C14_ManagerExhaustive$", "kind": "plain", "toolchain": "go126",
         "facets": ["C14/manager-enum"], "shards": (1, 1), "timeout": (600, 3000)},
        # the pause issued by the disk watchdog against a shutdown: StopDiskWatcher() - the first step of stopPipeline() -
        # must return whatever the paused state (real WatchDiskSpace under virtual time, shared with C18/watcher and C03)
        {"name": "c14watch", "pkg": "./internal/pkg/controler/watchers", "run": "^TestVerif_C18_Watcher$", "kind": "rapid", "toolchain": "go126",
         "facets": ["C14/watcher-stop"], "checks": (1500, 20000), "shards": (2, 8), "timeout": (600, 3000)},
        {"name": "c14kf1", "pkg": "./internal/pkg/controler/pause", "run": "^TestVerifKF_C14_ResumeWithoutPause$", "kind": "kf", "toolchain": "go126",
         "finding": "C14-resume-without-pause-blocks", "facets": [], "shards": (1, 1)},
    ],
}

import os, importlib.util
_spec = importlib.util.spec_from_file_location("c01", os.path.join(os.path.dirname(os.path.abspath(__file__)), "C01.py"))
_m = importlib.util.module_from_spec(_spec); _spec.loader.exec_module(_m)
PROP["units"].append(dict(_m.SIM_UNIT))
