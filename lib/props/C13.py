"""C13 registry entry."""

PROP = {
    "id": "C13",
    "level": "exploration",
    "technique": "stateful property testing (rapid) of the real token bucket and bucket manager under virtual time (testing/synctest) against invariants over the release log",
    "level_text": ("Generated histories of acquire (1..4 concurrent Wait callers) / advance(0..90 s) / failure(status) / success run on the real tokenBucket (with its real 50 ms polling) "
                   "and through the real BucketManager (2..5 hosts) under a virtual clock. Oracle = invariants, not a copy of the arithmetic: for every pair of releases i<j, "
                   "j-i+1 <= capacity + (tj-ti) x configured rate; tokens in [0, capacity]; min(0.5, rate) <= refill rate <= rate after every step; no release within 5 s "
                   "(min(5 x 2^(k-1), 30) s where k is a lower bound of the limiter's failure count: +1 per failure, -1 per success reported after the penalty) after a 429/403/408/425; 5xx never raises the rate nor sets a penalty; success never lowers it; "
                   "every waiter is released within 30 s + (waiters+1)/min-rate after the last event."),
    "level_note": "Real goroutines under the synctest scheduler; interleavings of concurrent waiters inside one polling tick are the runtime's. Capacity >= 1 (below one token Wait can never succeed). Eviction is outside this check (hosts <= maxBuckets); the end-to-end side (archive() waits once per item and reports every response to the limiter under the key it waited on) is the C13/pipeline facet of the simulated-network harness: per host - also host:port - the window bound and 'no new request within 5 s after a 429/408/425 (403: open finding)' over the virtual arrival times of first attempts.",
    "rule": "rapid-generated event lists (1..40 events, capacity 1..20, rate 0.05..50/s incl. < 0.5/s); non-trivial = history with >= 1 failure and >= 1 release after it (manager facet: plus >= 2 hosts used); distinct = distinct case JSON",
    "assumptions": ["virtual time (testing/synctest, go1.26.8): time.Now/time.Sleep inside the bubble are the fake clock"],
    "units": [
        {"name": "c13", "pkg": "./internal/pkg/archiver/ratelimiter", "run": "^TestVerif_C13_", "kind": "rapid", "toolchain": "go126",
         "facets": ["C13/bucket", "C13/manager"], "checks": (3000, 60000), "shards": (4, 16), "timeout": (600, 3000)},
        {"name": "c13kf1", "pkg": "./internal/pkg/archiver/ratelimiter", "run": "^TestVerifKF_C13_5xxRaisesRate$", "kind": "kf", "toolchain": "go126",
         "finding": "C13-5xx-raises-rate-below-half", "facets": [], "checks": (1, 1), "shards": (1, 1)},
        {"name": "c13kf403", "pkg": "./internal/pkg/verifsim", "run": "^TestVerifKF_Sim_403NoPenalty$", "kind": "kf", "toolchain": "go126",
         "finding": "C13-403-not-reported-to-limiter", "facets": [], "checks": (1, 1), "shards": (1, 1), "timeout": (300, 300)},
    ],
}

import os, importlib.util
_spec = importlib.util.spec_from_file_location("c01", os.path.join(os.path.dirname(os.path.abspath(__file__)), "C01.py"))
_m = importlib.util.module_from_spec(_spec); _spec.loader.exec_module(_m)
PROP["units"].append(dict(_m.SIM_UNIT))
