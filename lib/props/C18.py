"""C18 registry entry (see lib/registry.py for the field reference)."""

PROP = {
    "id": "C18",
    "level": "exploration",
    "technique": "property-based testing (rapid): differential test of watchers.checkThreshold against an exact rational (math/big) reference with a derived sub-byte tolerance, exact pairwise monotonicity, CheckDiskUsage against a direct statfs(2), the running disk watcher (real WatchDiskSpace under virtual time, threshold moved across the live free space, model of the paused state after every tick), and the flag->config path of --min-space-required in child processes",
    "level_text": "Generated-input search with shrinking over (total, free, min-space-required) triples: every decision of checkThreshold is compared with the statement's threshold computed in exact rational arithmetic (must refuse below floor(T), must accept from ceil(T); both coincide when T is an integer, so an off-by-one or a wrong constant is a failure while sub-byte truncation is not); monotonicity in free is checked exactly on 2-4 free values per (total, setting); CheckDiskUsage is compared with the decision on the numbers of a direct statfs(2) of the same path (settings placed at live free space -2..+2 bytes); the text given after --min-space-required is followed through the real pflag->viper->config path in child processes (every whole number 0..128 GiB exhaustively, plus generated texts) and must arrive as the same float64. Exploration, not proof: the 2^192 triple space is sampled (boundary constructions + magnitude-uniform), not enumerated.",
    "level_note": "Trusts the harness's reference (self-tested in the same run against hand-computed points, and its tolerance band is verified to be <= 1 byte wide on every generated setting). The decision function is checked in isolation; the running watcher is exercised by C18/watcher (the harness cannot change the volume, so it moves the setting - which the watcher re-reads at every tick - far above / far below the live free space); the start-up refusal in pipeline.go is not exercised here (C03/C04's process harness starts crawls with a tiny setting only). C18/statfs sees only the sandbox's one volume (bavail != bfree there, frsize == bsize), so a bfree/bavail mix-up is detectable but a bsize/frsize mix-up is not. 'free space' is taken to be f_bavail*f_bsize and the setting to be the float64 held by the config; C18/config checks that this float64 is the number typed after --min-space-required.",
    "rule": ("rapid-generated (total, free, min-space-required) triples: total and free uniform over bit lengths 0..64 plus boundary constructions "
             "(total = 256 GiB -1/0/+1 and +-4096, multiples of 128 (integral default threshold), blocks*bsize, > 2^53, 0, 2^64-1; free = floor(T)/ceil(T) -2..+2, "
             "T +- 4096, T +- 3 ulp, 2^63 -2..+2, 0, 2^64-1; min-space in {0, -0, tiny, whole GiB, decimal fractions, whole bytes, half bytes, T >= 2^53, T >= 2^64, +Inf, negative, NaN}); "
             "a case is non-trivial when free is within 2 bytes of the exact threshold (within 2 float64 ulp of it when the threshold is >= 2^53) "
             "(C18/monotone: when one of its free values is; C18/statfs: same rule on the live numbers; C18/watcher: when the history makes the paused state change at least twice; C18/config: when a non-zero value is given - the whole numbers 0..128 are swept exhaustively in every run); distinct = distinct triple (64-bit hash) per facet"),
    "assumptions": [
        "free space = f_bavail * f_bsize and volume size = f_blocks * f_bsize of statfs(2) on the job path, as CheckDiskUsage reads them",
        "min-space-required 'given' means > 0 (0 is the flag's default); for negative or NaN settings only what both readings of the statement demand is asserted (accept when the default threshold accepts)",
        "threshold semantics are defined on the float64 the flag parser produces from the operator's text; a non-integral threshold leaves the single byte value floor(T) undetermined",
        "amd64 only: the out-of-range float->uint64 conversion the code performs for thresholds >= 2^64 bytes is implementation-defined in Go",
    ],
    "units": [
        {"name": "c18", "pkg": "./internal/pkg/controler/watchers", "run": "^TestVerif_C18_(Exact|Monotone)$", "kind": "rapid",
         "facets": ["C18/exact", "C18/monotone"],
         "checks": (400000, 6000000), "shards": (4, 16), "timeout": (600, 3000)},
        {"name": "c18aux", "pkg": "./internal/pkg/controler/watchers", "run": "^TestVerif_C18_(Statfs|OracleSelfTest)$", "kind": "rapid",
         "facets": ["C18/statfs"],
         "checks": (5000, 50000), "shards": (1, 4), "timeout": (600, 3000)},
        {"name": "c18cfg", "pkg": "./internal/pkg/controler/watchers", "run": "^TestVerif_C18_Config$", "kind": "rapid",
         "facets": ["C18/config"],
         "checks": (150, 1000), "shards": (2, 16), "timeout": (600, 3000)},
        {"name": "c18watch", "pkg": "./internal/pkg/controler/watchers", "run": "^TestVerif_C18_Watcher$", "kind": "rapid", "toolchain": "go126",
         "facets": ["C18/watcher"],
         "checks": (1500, 20000), "shards": (2, 8), "timeout": (600, 3000)},
        {"name": "c18kf-overflow", "pkg": "./internal/pkg/controler/watchers", "run": "^TestVerifKF_C18_MinSpaceOverflow$", "kind": "kf",
         "finding": "C18-minspace-overflows-uint64", "facets": [],
         "checks": (2000, 20000), "shards": (1, 1), "shrinktime": (5, 10), "timeout": (600, 600)},
        {"name": "c18kf-20", "pkg": "./internal/pkg/controler/watchers", "run": "^TestVerifKF_C18_MinSpace20$", "kind": "kf",
         "finding": "C18-minspace-20-reset-by-alias", "facets": [],
         "checks": (1, 1), "shards": (1, 1), "timeout": (600, 600)},
    ],
}
