"""C06 registry entry."""
import os, importlib.util
_spec = importlib.util.spec_from_file_location("c01", os.path.join(os.path.dirname(os.path.abspath(__file__)), "C01.py"))
_m = importlib.util.module_from_spec(_spec); _spec.loader.exec_module(_m)

PROP = {
    "id": "C06",
    "level": "exploration",
    "technique": "property-based testing (rapid) of the whole real pipeline on adversarial generated sites under virtual time, differential against a reference crawler that encodes the stated limits",
    "level_text": ("Same harness as C01 (five real stages, simulated network, virtual time). Generated sites contain redirect chains longer than --max-redirect, redirect loops and self-redirects, JSON/M3U8 documents nested deeper than "
                   "the depth limit, HTML embedded as an asset, always-failing and fail-n-then-ok resources (5xx, 429, 408, transport errors, unparsable Location headers), pages with outlinks matching / not matching --domains-crawl; "
                   "max-redirect 0..4, max-retry 0..2, max-hops 0..2, seed hops 0..max-hops+1. Oracle: per URL the number of requests equals the reference crawler's answer (chain cut after max-redirect followed redirects, nothing fetched "
                   "beyond three levels below the page unless domains crawl is on, max-retry + 1 attempts per visit for retried failures), nothing outside any seed's tree is requested, every seed finishes (deterministic hang detection), "
                   "outlinks are queued only from pages with hops < max-hops with parent hops + 1, or hops 0 when they match --domains-crawl; assets and redirect targets inherit the hops."),
    "level_note": "Retry sleeps (2 x retry seconds) cost nothing under virtual time, so the real archive() retry loop runs unmodified. The reference crawler is a second implementation of the statement; sites are tree-shaped (plus loops and sibling duplicates) so that its answer is unique.",
    "rule": "rapid-generated (settings, site, seeds) cases; non-trivial = a limit actually cut something off (max-redirect, depth, retry exhaustion or retry-then-success, max-hops, domains-crawl hop reset); distinct = distinct case JSON",
    "assumptions": ["virtual time (testing/synctest, go1.26.8)"],
    "units": [dict(_m.SIM_UNIT)],
}
