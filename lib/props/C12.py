"""C12 registry entry."""

PROP = {
    "id": "C12",
    "level": "exploration",
    "technique": "model-based stateful property testing (rapid) of the real reactor under virtual time (testing/synctest): blocking decided by synctest.Wait, results compared with a reference model",
    "level_text": ("Generated histories of insert / read / feedback / finish / unknown-feedback / unknown- and repeated-finish / freeze / stop and small concurrent "
                   "batches (finishes + inserts released together) run against the real reactor inside a synctest bubble. After every step: tokens in use == state table == "
                   "model's tracked set <= max tokens; insert blocks exactly at exhaustion and unblocks on finish; feedback of a tracked seed never blocks and takes no token; "
                   "rejected calls leave table and pool unchanged; every accepted seed is delivered exactly once per insert/feedback while a consumer reads; frozen/stopped "
                   "reactor accepts nothing; no call is still parked after a virtual hour."),
    "level_note": "Operation-level interleavings only (each call runs to its blocking point before the next is issued, batches are released together); instruction-level races inside a call are the Go scheduler's. Feedback is only generated for seeds the consumer holds (what the finisher does). Seed ids are unique (duplicate ids panic by design).",
    "rule": "rapid-generated operation lists (1..40 ops, 1..5 tokens); non-trivial = the history reached token exhaustion or used an error path; distinct = distinct (tokens, op list)",
    "assumptions": ["virtual time: a call that has not returned when every goroutine in the bubble is durably blocked is blocked"],
    "units": [
        {"name": "c12", "pkg": "./internal/pkg/reactor", "run": "^TestVerif_C12_", "kind": "rapid", "toolchain": "go126",
         "facets": ["C12/model", "C12/race-stress", "C12/capacity"], "checks": (25000, 200000), "shards": (4, 16), "timeout": (600, 3000)},
        {"name": "c12kf1", "pkg": "./internal/pkg/reactor", "run": "^TestVerifKF_C12_UnknownFeedbackStored$", "kind": "kf", "toolchain": "go126",
         "finding": "C12-unknown-feedback-stored", "facets": [], "checks": (1, 1), "shards": (1, 1)},
        {"name": "c12kf2", "pkg": "./internal/pkg/reactor", "run": "^TestVerifKF_C12_FrozenAcceptsInsert$", "kind": "kf", "toolchain": "go126",
         "finding": "C12-frozen-accepts-insert", "facets": [], "checks": (1, 1), "shards": (1, 1)},
    ],
}
