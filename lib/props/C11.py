"""C11 registry entry."""

PROP = {
    "id": "C11",
    "level": "exploration",
    "technique": "model-based property testing (rapid) of pipeline-shaped operation histories on the real models.Item API with an independent tree walker as oracle, plus exhaustive choice-sequence enumeration for a small scope",
    "level_text": ("The real Item API is driven with exactly the calls the stages make (filter/remove, DedupeItems, seen, PreProcessed, Archived/Failed, "
                   "Completed/redirect/children, CompleteAndCheck) always at the maximum depth. After every operation an independent walker over the raw fields "
                   "checks unique ids, symmetric links and CheckConsistency; DedupeItems is checked against before/after URL multisets (exactly one non-seed node per URL, "
                   "no URL lost or invented, pending nodes untouched); CompleteAndCheck must return true iff the pre-call snapshot has no Fresh/PreProcessed/Archived node "
                   "(also probed on clones mid-pass). Small scope (2-URL alphabet, <= 5/6 nodes, <= 3/4 passes) is enumerated exhaustively; larger trees are sampled."),
    "level_note": "C11/concurrent adds bursts of concurrent RemoveChild/AddChild calls on one parent (distinct children, so the outcome is interleaving-independent). The stage behaviour is re-stated by the harness (same API calls in the same order as preprocess/archive/postprocessItem/finisher); trees no stage sequence can produce are outside the domain. The real stages run the same API in the C01 pipeline harness.",
    "rule": ("histories = choice sequences interpreted by a pipeline-shaped pass runner (rapid lists for large trees; an odometer enumerating every sequence for the small scope); "
             "non-trivial = the tree reached depth >= 2 and contained a duplicate URL or a redirect; distinct = distinct operation log (history) / distinct (start state, choice vector)"),
    "assumptions": ["pending(n) <=> status in {Fresh, PreProcessed, Archived}", "the seed's own URL may be repeated by one non-seed node (DedupeItems skips the seed by design)"],
    "units": [
        {"name": "c11", "pkg": "./pkg/models", "run": "^TestVerif_C11_History$", "kind": "rapid",
         "facets": ["C11/history", "C11/wellformed", "C11/dedupe", "C11/complete-iff", "C11/complete-iff-midpass"],
         "checks": (60000, 400000), "shards": (4, 16), "timeout": (600, 3000)},
        {"name": "c11conc", "pkg": "./pkg/models", "run": "^TestVerif_C11_Concurrent$", "kind": "rapid",
         "facets": ["C11/concurrent"], "checks": (1500, 30000), "shards": (2, 8), "timeout": (600, 3000)},
        # DedupeItems on any tree the model's consistency check accepts (not only pipeline-shaped ones)
        {"name": "c11tree", "pkg": "./pkg/models", "run": "^TestVerif_C11_DedupeAnyTree$", "kind": "rapid",
         "facets": ["C11/dedupe-any-tree"], "checks": (20000, 300000), "shards": (2, 8), "timeout": (600, 3000)},
        {"name": "c11enum", "pkg": "./pkg/models", "run": "^TestVerif_C11_Exhaustive$", "kind": "plain",
         "facets": ["C11/wellformed#enum", "C11/dedupe#enum", "C11/complete-iff#enum", "C11/complete-iff-midpass#enum"],
         "shards": (8, 16), "timeout": (600, 3000),
         "env": {"VERIF_N_C11_ENUM_NODES": (5, 6), "VERIF_N_C11_ENUM_PASSES": (3, 4), "VERIF_N_C11_ENUM_ALPHABET": (3, 3)}},
    ],
}
