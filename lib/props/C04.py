"""C04 registry entry."""

PROP = {
    "id": "C04",
    "level": "fault_enumeration",
    "technique": "property-based testing (rapid) over crash points: SIGKILL / SIGTERM of the real command line at the n-th hit of verifhook points or at origin-side request events, restart on the same job directory, invariants over lq.db, origin log and WARC files",
    "level_text": ("Each case pre-seeds jobs/<job>/lq.db (the crawler's own schema) with 5..30 URLs, runs the real CLI with the local queue and kills it (SIGKILL, or graceful SIGTERM) at a generated point: n-th hit of an event in the "
                   "claim / reactor-insert / WARC-feedback / finish / delete paths (verifhook), or arrival/completion of the k-th request; optionally a second kill during the restarted run. After the fault: every queue row that is gone "
                   "(reported finished) must have its response records (page and assets) in the WARC files left on disk (incl. .open), which must be readable record by record up to a possibly truncated tail. After the restart drains: "
                   "every URL that was still in the queue was requested again in a later run, and no row is left CLAIMED."),
    "level_note": "SIGKILL of the process, not power loss (page cache survives). Kill points are hook/event boundaries. Drain is decided by the queue being empty or no progress (origin log, lq.db) for 9 s (finish batches are flushed every 5 s).",
    "rule": "rapid-generated (queue size, workers, fault kind, point, n) cases, 2-3 child processes each; non-trivial = the fault landed with >= 1 row CLAIMED; distinct = distinct case JSON",
    "assumptions": ["the parent reads lq.db read-only with the same sqlite driver"],
    "units": [
        {"name": "proc04", "pkg": "./internal/pkg/verifproc", "run": "^TestVerif_C04_Proc$", "kind": "rapid",
         "facets": ["C04/proc"], "checks": (2, 30), "shards": (12, 16), "timeout": (900, 3000), "shrinktime": (20, 60)},
        # strict reproduction of the open finding (default seen-store + kill): runs only while known_findings.json lists it as open
        {"name": "c04kf-seen", "pkg": "./internal/pkg/verifproc", "run": "^TestVerifKF_C04_SeenBeforeCaptured$", "kind": "kf",
         "finding": "C04-seen-before-captured", "facets": ["C04/proc"], "checks": (1, 1), "shards": (1, 1), "timeout": (300, 300)},
    ],
}
