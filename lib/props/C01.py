"""C01 registry entry."""

SIM_UNIT = {"name": "sim", "pkg": "./internal/pkg/verifsim", "run": "^TestVerif_Sim_(Pipeline|Directed)$", "kind": "rapid", "toolchain": "go126",
            "facets": ["C01/pipeline", "C06/pipeline", "C05/pipeline", "C08/pipeline", "C13/pipeline", "C14/pipeline", "C03/sim", "C17/gauges", "C15/pipeline", "C16/pipeline"],
            "checks": (900, 20000), "shards": (8, 16), "timeout": (900, 3000)}

PROP = {
    "id": "C01",
    "level": "exploration",
    "technique": "property-based testing (rapid) of the whole real pipeline on a generated site model under virtual time (testing/synctest), differential against a reference crawler; invariants over the finish/fetch history",
    "level_text": ("All five real stages (reactor, preprocessor+seencheck, archiver incl. retry loop and ProcessBody, postprocessor, finisher) are wired as in controler.startPipeline; the harness is the source "
                   "(owns finish and produce channels) and the archiver's HTTP client gets an in-memory RoundTripper serving a generated site (pages, nested JSON/M3U8 documents, redirect chains and loops, "
                   "4xx/5xx, fail-n-then-ok, transport errors, excluded/invalid/duplicate/path-less references). 1..2w+1 seeds are inserted concurrently with w workers (token back-pressure). "
                   "Oracle: every inserted seed is finished exactly once; at the finish instant no node is Fresh/PreProcessed/Archived; no request for the seed's host after its finish; the set and number of "
                   "requests per URL equals what a reference crawler (written from the property statements) derives; the reactor tracks nothing at quiescence. A seed that never finishes is detected "
                   "deterministically: under synctest every goroutine is durably blocked and a virtual hour has passed."),
    "level_note": "Asynchronous WARC mode and a fake transport (no sockets, no WARC records - those are C02's harness). Goroutine interleavings are the Go scheduler's (GOMAXPROCS, worker counts and asset concurrency vary per case), not enumerated. The reference crawler is a second implementation of the statements; generated sites are tree-shaped with leaf/sibling duplicates and redirect loops so that its answer is unique.",
    "rule": "rapid-generated (settings, site, seeds) cases, one pipeline lifecycle each; non-trivial = some seed needed >= 2 requests (assets, redirect or retry, i.e. >= 2 passes through the feedback loop); distinct = distinct case JSON",
    "assumptions": ["virtual time (testing/synctest, go1.26.8)", "stage once-guards are reset between lifecycles by overlay-only VerifReset hooks"],
    "units": [SIM_UNIT],
}
