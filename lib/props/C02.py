"""C02 registry entry."""

PROP = {
    "id": "C02",
    "level": "exploration",
    "technique": "property-based testing (rapid) of the whole real pipeline incl. the real WARC-writing HTTP client (synchronous WARC mode) against in-process origin servers on 127.0.0.N; the finish-receiving goroutine parses the job's WARC files with an independent reader and compares them with the origin log; the same property once more per process under the Go race detector (shared state between the fetch goroutines and the WARC recorder)",
    "level_text": ("All five real stages are wired as in controler.startPipeline; the harness is the source (owns the finish and produce channels). Origin servers answer from a generated table with exact control "
                   "of the bytes on the wire (hijacked connections): body size classes 0/1/2047/2048/2049, whole message = dedupe threshold -1/0/+1, 64 KiB, 1 MiB and 2 MiB +-1, random; text/binary/empty/HTML; "
                   "honest and lying content types; identity|gzip; Content-Length|chunked|connection-close framing; statuses 200/204/301/302/403/403+cf-mitigated/404/408/429/500/503; fail-then-ok; truncated "
                   "bodies and dropped connections; identical payloads under several URLs. Per lifecycle: workers 1..4, max-concurrent-assets 1..8, WARC pool 1..2, on-disk mode, local dedupe on/off, dedupe size, "
                   "--warc-discard-status sets, max-retry 0..2, file rotation. Oracle at the instant each finish message is received (WARC files parsed before anything else, by a reader that does not use the warc "
                   "library): every completely sent response of that seed which the discard policy accepts has a response (or identical-payload revisit) record and a request record with WARC-Target-URI = the "
                   "requested URL (the response record and the request record it names in WARC-Concurrent-To must both be there), the HTTP status, payload length and SHA-1 the origin sent; every member decompresses alone, block length = Content-Length, block and payload digests match; no record exists - "
                   "then, at quiescence, or after the stop - that the origin log does not explain, in particular none for a rejected response."),
    "level_note": "A run in which a seed is never reported finished, connections never deliver their records or Stop() never returns (no progress for 20 x the slowest legitimate step + 10 s) cannot be judged and is reported as a violation of this check with the goroutine dump. Real time and real sockets: interleavings are the scheduler's. 'On disk' means visible through the file system after the writer's flush (page cache), not fsync. Asynchronous WARC mode, proxies and CDX dedupe are outside the statement. A seed that never finishes is declared only by lack of progress over 20 x the slowest legitimate step.",
    "rule": "one evaluation = one completely sent response checked at its seed's finish instant; non-trivial = accepted by the discard policy and non-empty; distinct = distinct (size class, kind, encoding, framing, status, record type response|revisit, lying content type, retry path) tuples; C02/rejected counts responses the policy rejects, distinct by (reason, status, discard set)",
    "assumptions": ["origins on 127.0.0.2+ (loopback only)", "stage once-guards are reset between lifecycles by overlay-only VerifReset hooks", "one rapid case = one pipeline lifecycle (start, seeds, quiescence, stop)"],
    "units": [
        {"name": "c02", "pkg": "./internal/pkg/verifnet", "run": "^TestVerif_C02_(Finish|Probe)", "kind": "rapid", "toolchain": "go124",
         "facets": ["C02/finish", "C02/rejected"], "checks": (22, 110), "shards": (2, 8), "shrinktime": (25, 90), "timeout": (600, 2400), "verbose": True},
        # one lifecycle per process under the race detector (reports whose accessing function is one of the harness's own
        # reset hooks are ignored: they run while goroutines of the stopped pipeline wind down): the discard policy, the feedback channels and the per-item bookkeeping are
        # shared between the fetch goroutines of a seed and the WARC recorder's goroutines (a data race report is a violation)
        {"name": "c02race", "pkg": "./internal/pkg/verifnet", "run": "^TestVerif_C02_Finish$", "kind": "rapid", "toolchain": "go124",
         "facets": ["C02/finish"], "race": (True, True), "race_ignore": r"\.Verif[A-Z]\w*\(|/verifnet\.|/veriflib\.", "env": {"VERIF_N_C02_ONE_LIFECYCLE": (1, 1)}, "checks": (1, 1), "shards": (6, 16), "shrinktime": (5, 30), "timeout": (900, 2400), "verbose": True},
        # a stop request while captured responses wait for the (held) WARC writers: nobody may be reported finished before
        # its records are written
        {"name": "c02stop", "pkg": "./internal/pkg/verifnet", "run": "^TestVerif_C02_StopWriter$", "kind": "rapid", "toolchain": "go124",
         "facets": ["C02/stop-writer"], "checks": (6, 40), "shards": (3, 8), "shrinktime": (20, 60), "timeout": (600, 2400), "verbose": True},
        {"name": "c02kf1", "pkg": "./internal/pkg/verifnet", "run": "^TestVerifKF_C02_FailedResponseNotAwaited$", "kind": "kf", "toolchain": "go124",
         "finding": "C02-failed-response-not-awaited", "facets": [], "checks": (1, 1), "shards": (1, 1), "verbose": True},
    ],
}
