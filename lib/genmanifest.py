#!/usr/bin/env python3
"""Regenerates /verif/MANIFEST.json from lib/registry.py (+ lib/manifest_static.json)."""
import json, os, sys
HERE = os.path.dirname(os.path.abspath(__file__))
sys.path.insert(0, HERE)
import registry
VERIF = os.path.dirname(HERE)
static = json.load(open(os.path.join(HERE, "manifest_static.json")))
props = [json.loads(l) for l in open(os.path.join(VERIF, "properties.jsonl"))]
checks = []
na = []
for p in props:
    pid = p["id"]
    r = registry.PROPERTIES.get(pid)
    if r is None or r.get("disabled"):
        na.append({"property_id": pid, "reason": (r or {}).get("na_reason") or static["na_default"].get(pid, "check not built yet; see DESIGN.md")})
        continue
    checks.append({
        "property_id": pid,
        "quick_cmd": "./check %s --tier quick" % pid,
        "thorough_cmd": "./check %s --tier thorough" % pid,
        "evidence_file": "/verif/evidence/%s.json" % pid,
        "replay_cmd_template": "./check %s --replay {path}" % pid,
        "engine": r.get("engine", "rapid-overlay"),
        "level_claimed": {"category": r.get("level", "exploration"), "text": r["level_text"], "design_ref": r.get("design_ref", "DESIGN.md §3 " + pid)},
        "level_note": r["level_note"],
        "technique": r["technique"],
    })
m = {
    "version": 1,
    "setup_cmd": static["setup_cmd"],
    "hooks": static["hooks"],
    "engines": static["engines"],
    "checks": checks,
    "notes": static["notes"],
    "not_applicable": na,
}
json.dump(m, open(os.path.join(VERIF, "MANIFEST.json"), "w"), indent=1)
print("MANIFEST.json: %d checks, %d not_applicable" % (len(checks), len(na)))
