#!/usr/bin/env python3
"""Run a table of hand-written one-line mutations through lib/sens.py and print a result table.

  sweep.py <table.json> [--jobs N] [--filter regex] [--tier quick|thorough]

table.json: [{"prop": "C06", "label": "redirect-ge-to-gt", "file": "internal/pkg/...", "old": "...", "new": "...",
              "only": "<unit>" (optional), "onlyfiles": "<regex>" (optional), "expect": "caught|equivalent" (optional), "why": "..."}]
Every mutation runs in its own scratch worktree under /tmp (removed by sens.py). Results are appended to
<table>.results.jsonl (label, verdict, first violation message).
"""
import json
import os
import re
import subprocess
import sys
from concurrent.futures import ThreadPoolExecutor

VERIF = os.path.dirname(os.path.dirname(os.path.abspath(__file__)))


def run(m, tier):
    cmd = ["python3", os.path.join(VERIF, "lib", "sens.py"), m["prop"], m["label"], "--replace", m["file"], m["old"], m["new"], "--tier", tier]
    for f, o, n in m.get("more", []):
        cmd += ["--replace", f, o, n]
    if m.get("only"):
        cmd += ["--only", m["only"]]
    if m.get("onlyfiles"):
        cmd += ["--onlyfiles", m["onlyfiles"]]
    p = subprocess.run(cmd, cwd=VERIF, stdout=subprocess.PIPE, stderr=subprocess.STDOUT, text=True)
    lines = p.stdout.strip().splitlines()
    verdict = "BROKEN"
    for l in lines:
        mm = re.match(r"SENS \S+ \S+: (\w+)", l)
        if mm:
            verdict = mm.group(1)
    msg = next((l.strip()[:260] for l in lines if l.strip().startswith(">>")), "")
    if verdict == "BROKEN":
        msg = " / ".join(lines[-3:])[:400]
    return dict(prop=m["prop"], label=m["label"], verdict=verdict, msg=msg, expect=m.get("expect", "caught"))


def main():
    a = sys.argv[1:]
    table = a[0]
    jobs, flt, tier = 2, None, "quick"
    i = 1
    while i < len(a):
        if a[i] == "--jobs":
            jobs = int(a[i + 1]); i += 2
        elif a[i] == "--filter":
            flt = a[i + 1]; i += 2
        elif a[i] == "--tier":
            tier = a[i + 1]; i += 2
        else:
            print("bad arg", a[i]); return 2
    ms = json.load(open(table))
    if flt:
        ms = [m for m in ms if re.search(flt, m["prop"] + "/" + m["label"])]
    out = open(table.replace(".json", "") + ".results.jsonl", "a")
    with ThreadPoolExecutor(jobs) as ex:
        for r in ex.map(lambda m: run(m, tier), ms):
            print("%-4s %-40s %-7s %s" % (r["prop"], r["label"], r["verdict"], r["msg"]), flush=True)
            out.write(json.dumps(r) + "\n"); out.flush()
    return 0


if __name__ == "__main__":
    sys.exit(main())
