#!/usr/bin/env python3
"""Driver of the /verif checks.

  ./check <property-id> [--tier quick|thorough] [--replay <file>] [--strict] [--only <unit>] [--keep]

Builds the harness test binaries *into* the Zeno module found at $VERIF_REPO (default /repo) with a build
overlay (so /repo's working tree, whatever its state, is what gets compiled and nothing is written there),
runs the units registered for the property in lib/registry.py as sharded child processes, merges their
statistics into /verif/evidence/<id>.json, and reports

  exit 0  property held on everything explored (KNOWN-FINDING lines possible)
  exit 1  + "VIOLATION property=<id> replay=<path>" for every violation not listed as an open finding
  exit 2  infrastructure trouble (build failure, time budget exhausted, worker killed) - never a violation
"""
import hashlib
import json
import os
import re
import shutil
import subprocess
import sys
import time
from array import array
from concurrent.futures import ThreadPoolExecutor

HERE = os.path.dirname(os.path.abspath(__file__))
VERIF = os.path.dirname(HERE)
REPO = os.environ.get("VERIF_REPO", "/repo")
WORK = os.path.join(VERIF, "work")
sys.path.insert(0, HERE)
import registry  # noqa: E402

NCPU = os.cpu_count() or 4
# scratch trees (sensitivity runs with VERIF_REPO=<worktree>) get their own build and bin directories
# (their evidence and replay files go to work/ as well, never to the committed directories)
SUFFIX = "" if os.path.realpath(REPO) == "/repo" else "-" + hashlib.sha1(os.path.realpath(REPO).encode()).hexdigest()[:8]
# development aid: VERIF_ONLY_FILES=<regex> compiles only the harness _test.go files whose path matches (shared
# non-test overlay packages are always included), so that somebody else's half-written file cannot break a build
KNOWN = os.environ.get("VERIF_KNOWN") or os.path.join(VERIF, "known_findings.json")  # development: private copy
ONLY = os.environ.get("VERIF_ONLY_FILES")
if ONLY:
    SUFFIX += "-only" + hashlib.sha1(ONLY.encode()).hexdigest()[:6]


def log(*a):
    print(*a, file=sys.stderr, flush=True)


EVDIR = os.path.join(VERIF, "evidence") if not SUFFIX else os.path.join(WORK, "evidence" + SUFFIX)
REPLAYDIR = os.path.join(VERIF, "replays") if not SUFFIX else os.path.join(WORK, "replays" + SUFFIX)


# ----------------------------------------------------------------------------- toolchains

def _first(paths):
    for p in paths:
        if p and os.path.exists(p):
            return p
    return None


def toolchain(name):
    modcache = os.environ.get("GOMODCACHE") or os.path.expanduser("~/go/pkg/mod")
    if name == "go124":
        p = _first([
            os.path.join(modcache, "golang.org/toolchain@v0.0.1-go1.24.2.linux-amd64/bin/go"),
            "/root/go/pkg/mod/golang.org/toolchain@v0.0.1-go1.24.2.linux-amd64/bin/go",
        ])
        if p:
            return p, "local"
        return shutil.which("go") or "go", "auto"
    if name == "go126":
        p = _first(["/opt/veriftools/go1.26.8/bin/go", shutil.which("go1.26.8")])
        return p or "go1.26.8", "local"
    raise ValueError(name)


def goenv(gotoolchain):
    env = dict(os.environ)
    env.update({
        "GOFLAGS": "-mod=mod",
        "GOPROXY": "off",
        "GOTOOLCHAIN": gotoolchain,
        "GONOSUMDB": "*",
        "GONOSUMCHECK": "1",
        "GOFLAGS": "-mod=mod",
        "CGO_ENABLED": "1",
    })
    if gotoolchain == "local":
        env["GOSUMDB"] = "off"
    return env


# ----------------------------------------------------------------------------- build

def prepare_build_dir():
    bdir = os.path.join(WORK, "build" + SUFFIX)
    os.makedirs(bdir, exist_ok=True)
    with open(os.path.join(REPO, "go.mod")) as f:
        mod = f.read()
    mod += "\nrequire (\n\tpgregory.net/rapid v1.3.0\n\tgithub.com/anishathalye/porcupine v1.3.0\n)\n"
    modfile = os.path.join(bdir, "go.mod")
    old = open(modfile).read() if os.path.exists(modfile) else None
    if old is None or not old.startswith(mod[:200]) or "pgregory.net/rapid" not in old:
        with open(modfile, "w") as f:
            f.write(mod)
    sumfile = os.path.join(bdir, "go.sum")
    # keep the sums go added earlier (rapid, porcupine) and refresh the repository's own
    have = set(open(sumfile).read().splitlines()) if os.path.exists(sumfile) else set()
    have |= set(open(os.path.join(REPO, "go.sum")).read().splitlines())
    extra = os.path.join(VERIF, "harness", "extra.go.sum")
    if os.path.exists(extra):
        have |= set(open(extra).read().splitlines())
    with open(sumfile, "w") as f:
        f.write("\n".join(sorted(x for x in have if x.strip())) + "\n")
    # overlay: every file under harness/overlay/<rel> appears as $REPO/<rel>
    root = os.path.join(VERIF, "harness", "overlay")
    repl = {}
    for d, _, files in os.walk(root):
        for fn in files:
            src = os.path.join(d, fn)
            rel = os.path.relpath(src, root)
            if ONLY and fn.endswith("_test.go") and not re.search(ONLY, rel):
                continue
            repl[os.path.join(REPO, rel)] = src
    ov = os.path.join(bdir, "overlay.json")
    with open(ov, "w") as f:
        json.dump({"Replace": repl}, f, indent=1)
    return modfile, ov


def build_unit(u, modfile, ov):
    go, gtc = toolchain(u.get("toolchain", "go124"))
    bindir = os.path.join(WORK, "bin" + SUFFIX)
    os.makedirs(bindir, exist_ok=True)
    out = os.path.join(bindir, u["name"] + ".test")
    tags = "verif"
    cmd = [go, "test", "-c", "-vet=off", "-tags", tags, "-modfile=" + modfile, "-overlay=" + ov, "-o", out]
    if u.get("_race"):
        cmd.append("-race")
    if u.get("kind") == "fuzz" and u.get("_fuzz"):
        cmd += ["-fuzz", u["fuzz_target"]]
    cmd.append(u["pkg"])
    t0 = time.time()
    p = subprocess.run(cmd, cwd=REPO, env=goenv(gtc), stdout=subprocess.PIPE, stderr=subprocess.STDOUT, text=True)
    if p.returncode != 0:
        log("BUILD FAILED for unit %s:\n%s" % (u["name"], p.stdout[-6000:]))
        return None
    log("built %s in %.1fs" % (u["name"], time.time() - t0))
    return out


# ----------------------------------------------------------------------------- running

def mix(seed, *parts):
    h = hashlib.sha256(("%d|" % seed + "|".join(str(p) for p in parts)).encode()).digest()
    v = int.from_bytes(h[:8], "little") & 0x7FFFFFFFFFFFFFFF
    return v or 1


def tiered(v, tier):
    if isinstance(v, (tuple, list)):
        return v[0] if tier == "quick" else v[1]
    return v


def run_shard(u, binary, shard, seed, tier, rundir, extra_env=None, replay=None):
    name = "%s-%d" % (u["name"], shard)
    cwd = os.path.join(rundir, name)
    shutil.rmtree(cwd, ignore_errors=True)
    os.makedirs(cwd)
    env = dict(os.environ)
    env.update({
        "VERIF_STATS_DIR": os.path.join(rundir, "stats"),
        "VERIF_FAIL_DIR": os.path.join(rundir, "fail"),
        "VERIF_SHARD": name,
        "VERIF_SEED": str(seed),
        "VERIF_TIER": tier,
        "VERIF_KNOWN": KNOWN,
        "VERIF_DIR": VERIF,
        "VERIF_REPO": REPO,
        "VERIF_SCRATCH": cwd,
        "VERIF_NSHARDS": str(tiered(u.get("shards", 1), tier)),
        "VERIF_SHARD_INDEX": str(shard),
        "GOTRACEBACK": "all",
        "TMPDIR": cwd,
    })
    for k, v in (u.get("env") or {}).items():
        env[k] = str(tiered(v, tier))
    if extra_env:
        env.update(extra_env)
    if u.get("kind") == "kf":
        env["VERIF_STRICT"] = "1"
    if replay:
        env["VERIF_REPLAY"] = replay
    timeout = tiered(u.get("timeout", (600, 3600)), tier)
    args = [binary, "-test.run", u["run"], "-test.timeout", "%ds" % timeout, "-test.count", "1"]
    if u.get("verbose"):
        args.append("-test.v")
    if u.get("kind") in ("rapid", "kf") and not replay:
        checks = tiered(u.get("checks", (1000, 10000)), tier)
        args += ["-rapid.checks", str(checks), "-rapid.seed", str(mix(seed, u["name"], shard)),
                 "-rapid.shrinktime", "%ds" % tiered(u.get("shrinktime", (20, 60)), tier), "-rapid.nofailfile"]
    if u.get("kind") == "fuzz" and not replay and u.get("_fuzz"):
        args += ["-test.fuzz", u["fuzz_target"] + "$", "-test.fuzzcachedir", os.path.join(cwd, "fuzzcache"),
                 "-test.fuzztime", "%ds" % tiered(u.get("fuzztime", (0, 60)), tier), "-test.parallel", str(u.get("fuzz_workers", 4))]
    if u.get("gomaxprocs"):
        env["GOMAXPROCS"] = str(tiered(u["gomaxprocs"], tier))
    outp = os.path.join(rundir, name + ".out")
    t0 = time.time()
    with open(outp, "w") as of:
        try:
            p = subprocess.run(args, cwd=cwd, env=env, stdout=of, stderr=subprocess.STDOUT, timeout=timeout + 120)
            rc = p.returncode
        except subprocess.TimeoutExpired:
            rc = -999
    wall = time.time() - t0
    fuzz_note = None
    if u.get("kind") == "fuzz" and not replay and u.get("_fuzz"):
        fuzz_note = collect_fuzz_crashers(u, binary, shard, seed, tier, rundir, extra_env, cwd, name)
    if not os.environ.get("VERIF_KEEP"):
        shutil.rmtree(cwd, ignore_errors=True)
    return {"unit": u["name"], "shard": shard, "rc": rc, "out": outp, "wall": wall, "name": name,
            "rapid_seed": mix(seed, u["name"], shard), "fuzz_unconfirmed": fuzz_note}


def collect_fuzz_crashers(u, binary, shard, seed, tier, rundir, extra_env, cwd, name):
    """Native fuzzing: the crasher the engine saved under testdata/fuzz/<Target>/ is the reproducible unit. Each one is
    copied to the replay directory (raw file + a replay JSON whose case carries the file's text as "gofuzz") and re-run
    once through the unit's plain replay path (the target's own oracle, watchdog included). Confirmed crashers become
    fail files of this shard (=> VIOLATION); returns a note when a crasher did not reproduce (=> inconclusive, exit 2)."""
    cdir = os.path.join(cwd, "testdata", "fuzz", u["fuzz_target"])
    note = None
    faildir = os.path.join(rundir, "fail")
    if os.path.isdir(cdir) and os.listdir(cdir) and os.path.isdir(faildir):
        for f in os.listdir(faildir):   # what the workers wrote while minimising is superseded by the saved crashers
            if f.endswith("-" + name + ".json") and not f.startswith("journal-"):
                os.remove(os.path.join(faildir, f))
    for i, fn in enumerate(sorted(os.listdir(cdir)) if os.path.isdir(cdir) else []):
        text = open(os.path.join(cdir, fn), errors="surrogateescape").read()
        facet = (u.get("facets") or [u["name"]])[0]
        case = dict(u.get("fuzz_case") or {})
        case["gofuzz"] = text
        doc = {"property": facet.split("/")[0], "facet": facet, "unit": u["name"], "case": case, "seed": str(seed),
               "message": "native fuzzing (%s) saved this crasher; it did not fail again on replay" % u["fuzz_target"]}
        os.makedirs(REPLAYDIR, exist_ok=True)
        base = os.path.join(REPLAYDIR, "%s-%s-%s" % (doc["property"], u["fuzz_target"], fn[:16]))
        shutil.copyfile(os.path.join(cdir, fn), base + ".fuzz")
        json.dump(doc, open(base + ".fuzz.json", "w"), indent=1)
        u2 = dict(u, name="%s-confirm%d" % (u["name"], i), _fuzz=False)
        r2 = run_shard(u2, binary, shard, seed, tier, rundir, extra_env, replay=base + ".fuzz.json")
        mine = [f for f in (os.listdir(faildir) if os.path.isdir(faildir) else []) if f.endswith("-" + r2["name"] + ".json")]
        if r2["rc"] == 0:
            note = "native fuzz crasher %s.fuzz did not reproduce on replay (inconclusive)" % base
            continue
        if mine:   # the oracle's own report (classified panic / confirmed hang), re-tagged for this shard
            for f in mine:
                d2 = json.load(open(os.path.join(faildir, f)))
                d2["case"] = case
                json.dump(d2, open(os.path.join(faildir, "fuzz%d-%s" % (i, f[:-len(r2["name"]) - 5] + name + ".json")), "w"), indent=1)
                os.remove(os.path.join(faildir, f))
        else:      # the replay process died: its output is the evidence
            doc["message"] = "native fuzz crasher kills the test process on replay: " + open(r2["out"], errors="replace").read()[:1500]
            os.makedirs(faildir, exist_ok=True)
            json.dump(doc, open(os.path.join(faildir, "fuzz%d-crash-%s.json" % (i, name)), "w"), indent=1)
    return note


# ----------------------------------------------------------------------------- evidence

def merge_stats(rundir):
    sdir = os.path.join(rundir, "stats")
    facets = {}
    if not os.path.isdir(sdir):
        return facets
    hashfiles = {}
    for fn in sorted(os.listdir(sdir)):
        p = os.path.join(sdir, fn)
        if fn.startswith("stats-") and fn.endswith(".json"):
            try:
                doc = json.load(open(p))
            except Exception:
                continue
            for name, fs in doc.get("facets", {}).items():
                m = facets.setdefault(name, {"evaluations": 0, "nontrivial": 0, "classes": {}, "samples": [],
                                             "excluded": {}, "saturated": False, "exhaustive": False})
                m["evaluations"] += fs.get("evaluations", 0)
                m["nontrivial"] += fs.get("nontrivial", 0)
                for k, v in (fs.get("classes") or {}).items():
                    m["classes"][k] = m["classes"].get(k, 0) + v
                for k, v in (fs.get("excluded") or {}).items():
                    m["excluded"][k] = m["excluded"].get(k, 0) + v
                if len(m["samples"]) < 6:
                    m["samples"] += (fs.get("samples") or [])[: 6 - len(m["samples"])]
                m["saturated"] = m["saturated"] or fs.get("saturated", False)
                m["exhaustive"] = m["exhaustive"] or fs.get("exhaustive", False)
        elif fn.startswith("hashes-") and fn.endswith(".bin"):
            # hashes-<shard>-<facet>.bin ; facet names are sanitised the same way in stats keys
            hashfiles.setdefault(fn, p)
    # distinct counts: union of hash sets per sanitised facet name
    def san(s):
        return re.sub(r"[^A-Za-z0-9_-]", "_", s)
    try:
        import numpy as np
    except Exception:
        np = None
    for name, m in facets.items():
        suffix = "-" + san(name) + ".bin"
        files = [p for fn, p in hashfiles.items() if fn.endswith(suffix)]
        if np is not None:
            arrs = [np.fromfile(p, dtype="<u8") for p in files]
            arrs = [a for a in arrs if a.size]
            m["distinct_nontrivial"] = int(np.unique(np.concatenate(arrs)).size) if arrs else 0
        else:
            s = set()
            for p in files:
                a = array("Q")
                with open(p, "rb") as f:
                    a.frombytes(f.read())
                s.update(a)
            m["distinct_nontrivial"] = len(s)
    return facets


def validate_evidence(doc):
    schema_path = "/root/.vp/EVIDENCE.schema.json"
    local = os.path.join(VERIF, "lib", "EVIDENCE.schema.json")
    sp = schema_path if os.path.exists(schema_path) else local
    if not os.path.exists(sp):
        return None
    try:
        import jsonschema
    except Exception:
        return None
    try:
        jsonschema.validate(doc, json.load(open(sp)))
        return True
    except Exception as e:  # noqa
        log("EVIDENCE DOES NOT VALIDATE: %s" % str(e)[:500])
        return False


# ----------------------------------------------------------------------------- main

def load_known():
    p = KNOWN
    if not os.path.exists(p):
        return []
    return json.load(open(p)).get("findings", [])


def race_reports(out):
    """-> [(top frame of access 1, top frame of access 2, text)] for every race detector report in the output"""
    reps = []
    for block in out.split("WARNING: DATA RACE")[1:]:
        block = block.split("==================")[0]
        lines = block.splitlines()
        tops = []
        for i, l in enumerate(lines):
            if re.match(r"^(Write at|Read at|Previous (write|read) at|Atomic|Previous atomic)", l.strip()) or re.match(r"^(Write|Read|Previous)", l):
                for x in lines[i + 1:i + 4]:
                    if x.strip().endswith(")") and not x.strip().startswith("/"):
                        tops.append(x.strip())
                        break
        reps.append((tops[0] if tops else "?", tops[1] if len(tops) > 1 else "?", block[:3000]))
    return reps


def classify(res, rundir, u=None):
    """-> (status, failfiles, note) with status in ok|fail|infra"""
    out = open(res["out"], errors="replace").read()
    ign = (u or {}).get("race_ignore")
    if ign and res["rc"] != 0 and "WARNING: DATA RACE" in out and not re.search(r"^(panic:|fatal error:)", out, re.M) and "[rapid] failed" not in out:
        reps = race_reports(out)
        kept = [r for r in reps if not (re.search(ign, r[0]) or re.search(ign, r[1]))]
        res["race_kept"] = kept
        only_race = not re.search(r"^\s+\S+\.go:\d+: (?!race detected during execution of test)", "\n".join(
            l for l in out.splitlines() if re.match(r"^\s+\S+_test\.go:\d+: ", l) and "[rapid] OK" not in l), re.M)
        if not kept and only_race:
            # every report involves an access made by the harness itself (its reset hooks run while goroutines of the
            # stopped pipeline are still winding down): not the code under test
            res["race_ignored"] = len(reps)
            return "ok", [], "%d race report(s) between the harness's own reset hooks and leftover goroutines ignored" % len(reps)
    faildir = os.path.join(rundir, "fail")
    fails = []
    if os.path.isdir(faildir):
        for fn in os.listdir(faildir):
            if fn.endswith("-" + res["name"] + ".json") and not fn.startswith("journal-"):
                fails.append(os.path.join(faildir, fn))
    if res["rc"] == 0:
        return "ok", [], ""
    if fails:
        return "fail", fails, ""
    if res.get("fuzz_unconfirmed"):
        return "infra", [], res["fuzz_unconfirmed"]
    jp = os.path.join(faildir, "journal-%s.json" % res["name"])
    if os.path.exists(jp) and re.search(r"^(panic:|fatal error:)", out, re.M) and "panic: test timed out" not in out:
        # the process died inside a journalled case (this includes the runtime giving up on memory the case asked for)
        return "crash", [], ""
    if res["rc"] == -999 or "panic: test timed out" in out:
        return "infra", [], "time budget exhausted"
    if "cannot allocate memory" in out or "out of memory" in out.lower() and "fatal error: runtime: out of memory" in out:
        return "infra", [], "out of memory"
    if re.search(r"^(--- FAIL|FAIL|panic:|fatal error:)", out, re.M) or "WARNING: DATA RACE" in out:
        return "crash", [], ""
    return "infra", [], "worker exited with status %s without a verdict" % res["rc"]


def warm():
    """Compile every unit once so that later checks start from a warm build cache."""
    modfile, ov = prepare_build_dir()
    seen = set()
    for pid, prop in sorted(registry.PROPERTIES.items()):
        for u in prop["units"]:
            u = dict(u)
            key = (u["pkg"], u.get("toolchain", "go124"))
            if key in seen:
                continue
            seen.add(key)
            u["_race"] = False
            u["_fuzz"] = False
            build_unit(u, modfile, ov)
    return 0


def main():
    argv = sys.argv[1:]
    if not argv:
        print(__doc__)
        return 2
    if argv[0] == "--warm":
        return warm()
    pid = argv[0]
    tier = os.environ.get("VERIF_TIER", "quick")
    replay = None
    only = None
    strict = False
    i = 1
    while i < len(argv):
        a = argv[i]
        if a == "--tier":
            tier = argv[i + 1]; i += 2
        elif a == "--replay":
            replay = os.path.abspath(argv[i + 1]); i += 2
        elif a == "--only":
            only = argv[i + 1]; i += 2
        elif a == "--strict":
            strict = True; i += 1
        elif a == "--keep":
            os.environ["VERIF_KEEP"] = "1"; i += 1
        else:
            log("unknown argument", a); return 2
    if tier not in ("quick", "thorough"):
        tier = "quick"
    try:
        seed = int(os.environ.get("VERIF_SEED", "1"))
    except ValueError:
        seed = 1
    prop = registry.PROPERTIES.get(pid)
    if prop is None:
        log("no check registered for", pid)
        return 2
    t_start = time.time()
    rundir = os.path.join(WORK, "run", "%s-%s-%d" % (pid, tier, os.getpid()))
    shutil.rmtree(rundir, ignore_errors=True)
    os.makedirs(rundir)
    os.makedirs(EVDIR, exist_ok=True)
    known = [k for k in load_known() if k.get("property") == pid]
    open_keys = {k["key"]: k for k in known if k.get("status") == "open"}

    units = [dict(u) for u in prop["units"]]
    if only:
        units = [u for u in units if u["name"] == only]
    # kf units only run for findings that are open
    units = [u for u in units if u.get("kind") != "kf" or u.get("finding") in open_keys]
    extra_env = {"VERIF_STRICT": "1"} if strict else {}

    replay_doc = None
    if replay:
        replay_doc = json.load(open(replay))
        fac = replay_doc.get("facet")
        cand = [u for u in units if fac in (u.get("facets") or []) or replay_doc.get("unit") == u["name"]]
        if not cand:
            log("no unit knows facet", fac); return 2
        units = cand[:1]

    modfile, ov = prepare_build_dir()
    infra = []
    binaries = {}
    for u in units:
        u["_race"] = bool(tiered(u.get("race", (False, False)), tier))
        u["_fuzz"] = bool(tiered(u.get("fuzztime", (0, 0)), tier)) and not replay
    # build sequentially (the go build cache is shared; builds are themselves parallel)
    for u in units:
        key = (u["pkg"], u.get("toolchain", "go124"), u["_race"], "fuzz" if u["_fuzz"] else None)  # one instrumented binary serves every target
        if key in binaries:
            u["_bin"] = binaries[key]
            continue
        b = build_unit(u, modfile, ov)
        if b is None:
            infra.append("build failed: " + u["name"])
            u["_bin"] = None
        else:
            # binaries are per unit name; copy so that identical keys share one build
            binaries[key] = b
            u["_bin"] = b

    jobs = []
    for u in units:
        if not u.get("_bin"):
            continue
        if replay:
            sh = replay_doc.get("shard_index", 0)
            jobs.append((u, sh))
        else:
            for sh in range(tiered(u.get("shards", 1), tier)):
                jobs.append((u, sh))
    results = []
    tries = 5 if replay else 1  # a schedule-dependent failure may need several runs to show again
    # weight: units may declare how many cores one shard uses
    maxpar = max(1, NCPU)
    with ThreadPoolExecutor(max_workers=maxpar) as ex:
        futs = []
        for u, sh in jobs:
            rseed = seed
            env2 = dict(extra_env)
            if replay and replay_doc.get("rapid_seed"):
                env2["VERIF_RAPID_SEED"] = str(replay_doc["rapid_seed"])
            futs.append(ex.submit(run_shard, u, u["_bin"], sh, rseed, tier, rundir, env2, replay))
        for f in futs:
            results.append(f.result())
    for attempt in range(1, tries):
        if any(r["rc"] != 0 for r in results):
            break
        log("replay attempt %d passed, trying again" % attempt)
        results = [run_shard(u, u["_bin"], sh, seed, tier, rundir, dict(extra_env), replay) for u, sh in jobs]

    violations = []
    other_prop_hits = []
    known_lines = []
    os.makedirs(REPLAYDIR, exist_ok=True)
    umap = {u["name"]: u for u in units}
    for res in results:
        u = umap[res["unit"]]
        status, fails, note = classify(res, rundir, umap[res["unit"]])
        res["status"] = status
        if status == "ok":
            if note:
                log("note: %s: %s" % (res["name"], note))
            if u.get("kind") == "kf" and not replay:
                log("note: open finding %s did not reproduce in this run" % u.get("finding"))
            continue
        if status == "infra":
            infra.append("%s: %s (see %s)" % (res["name"], note, res["out"]))
            continue
        outtxt = open(res["out"], errors="replace").read()
        jp = os.path.join(rundir, "fail", "journal-%s.json" % res["name"])
        if status == "crash" and os.path.exists(jp):
            # the process died inside a journalled case: that case is the culprit
            fails = [jp]
            status = "fail"
        if status == "crash":
            # the process died (or the test failed) without leaving a case file: the output is the replay
            rk = res.get("race_kept") or (race_reports(outtxt) if "WARNING: DATA RACE" in outtxt else [])
            doc = {"property": pid, "facet": (u.get("facets") or [u["name"]])[0], "unit": u["name"],
                   "message": ("data race reported by the race detector between %s and %s" % (rk[0][0], rk[0][1])) if rk else "test process failed without a recorded case", "shard_index": res["shard"],
                   "rapid_seed": res["rapid_seed"], "seed": seed, "tier": tier, "output_tail": outtxt[-20000:]}
            fails = [os.path.join(rundir, "crash-%s.json" % res["name"])]
            json.dump(doc, open(fails[0], "w"), indent=1)
        for fp in fails:
            doc = json.load(open(fp))
            doc.setdefault("unit", u["name"])
            doc.setdefault("shard_index", res["shard"])
            doc.setdefault("rapid_seed", res["rapid_seed"])
            doc["tier"] = tier
            doc["output_tail"] = outtxt[-8000:]
            msg = doc.get("message", "")
            if u.get("kind") == "kf":
                k = open_keys.get(u.get("finding"))
                if k and re.search(k.get("match", re.escape(k["key"])), msg + "\n" + outtxt):
                    known_lines.append("KNOWN-FINDING: property=%s %s" % (pid, k["what"]))
                    continue
            fprop = str(doc.get("facet", "")).split("/")[0]
            if re.fullmatch(r"C\d\d", fprop) and fprop != pid and not replay:
                h2 = hashlib.sha1(json.dumps(doc.get("case", ""), sort_keys=True).encode()).hexdigest()[:10]
                d2 = os.path.join(WORK, "other-%s-%s-%s.json" % (fprop, re.sub(r"[^A-Za-z0-9_-]", "_", str(doc.get("facet"))), h2))
                json.dump(doc, open(d2, "w"), indent=1)
                log("note: the shared harness hit a violation of %s (%s); it is reported by ./check %s, not by this check [%s]" % (fprop, msg[:200].replace("\n", " "), fprop, d2))
                other_prop_hits.append(fprop)
                continue
            h = hashlib.sha1(json.dumps(doc.get("case", doc.get("output_tail", "")), sort_keys=True).encode()).hexdigest()[:10]
            dest = os.path.join(REPLAYDIR, "%s-%s-%s.json" % (pid, re.sub(r"[^A-Za-z0-9_-]", "_", str(doc.get("facet"))), h))
            if replay and os.path.abspath(dest) == replay:
                pass
            else:
                json.dump(doc, open(dest, "w"), indent=1)
            violations.append((dest, msg))

    facets = merge_stats(rundir)
    # a shared harness run records facets of several properties: this property's evidence is its own facets only
    own = {n: f for n, f in facets.items() if n.startswith(pid + "/") or n.split("/")[0] in prop.get("extra_facet_prefixes", [])}
    if own:
        facets = own
    evaluations = sum(f["evaluations"] for f in facets.values())
    distinct = sum(f.get("distinct_nontrivial", 0) for f in facets.values())
    samples = []
    for name, f in sorted(facets.items()):
        for s in f["samples"][:3]:
            samples.append({"facet": name, "case": s})
    samples = samples[:40]
    wall = time.time() - t_start
    ev = {
        "property_id": pid,
        "tier": tier,
        "seed": seed,
        "level": prop.get("level", "exploration"),
        "coverage": {
            "evaluations": int(evaluations),
            "distinct_nontrivial": int(distinct),
            "rule": prop["rule"],
            "samples": samples,
            "facets": {n: {k: v for k, v in f.items() if k != "samples"} for n, f in sorted(facets.items())},
            "exhaustive": bool(facets) and all(f.get("exhaustive") for f in facets.values()),
            "units": [{"unit": r["name"], "rapid_seed": r["rapid_seed"], "status": r.get("status"), "wall_s": round(r["wall"], 2)} for r in results],
            "known_findings_reported": known_lines,
            "infrastructure_notes": infra,
        },
        "assumptions": prop.get("assumptions", []),
        "wall_s": round(wall, 2),
        "violations": len(violations),
    }
    if not replay:
        ok = validate_evidence(ev)
        evp = os.path.join(EVDIR, pid + ".json")
        json.dump(ev, open(evp, "w"), indent=1, default=str)
        if ok is False:
            infra.append("evidence file does not validate")
    for line in dict.fromkeys(known_lines):
        print(line)
    seen_dest = set()
    for dest, msg in violations:
        if dest in seen_dest:
            continue
        seen_dest.add(dest)
        print("VIOLATION property=%s replay=%s" % (pid, dest))
        log("  >> " + msg[:600].replace("\n", "\n     "))
    log("%s %s: %d evaluations, %d distinct non-trivial, %d violations, %.1fs" % (pid, tier, evaluations, distinct, len(violations), wall))
    if not os.environ.get("VERIF_KEEP") and not violations and not infra:
        shutil.rmtree(rundir, ignore_errors=True)
    if violations:
        return 1
    if infra:
        for n in infra:
            log("INFRA: " + n)
        return 2
    if not replay and (evaluations < 1 or distinct < 2):
        log("INFRA: no evidence gathered")
        return 2
    return 0


if __name__ == "__main__":
    sys.exit(main())
