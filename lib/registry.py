"""Registry of checks: property id -> units (test binaries x shards) + evidence wording.

Unit fields:
  name       unique name (also the binary name)
  pkg        Go package (relative to the Zeno module root) the harness is injected into
  run        -test.run regex
  kind       rapid | plain | kf (strict sub-check of one open known finding) | fuzz
  facets     facet names whose replay files this unit can re-run
  toolchain  go124 (module's own, default) | go126 (virtual time / synctest)
  checks     (quick, thorough) rapid case count per shard
  shards     (quick, thorough) number of processes (each with its own derived rapid seed)
  race       (quick, thorough) build with -race
  timeout    (quick, thorough) seconds for -test.timeout
  env        extra environment (values may be (quick, thorough) pairs)
"""

import glob
import importlib.util
import os

PROPERTIES = {}

for _p in sorted(glob.glob(os.path.join(os.path.dirname(os.path.abspath(__file__)), "props", "C*.py"))):
    _spec = importlib.util.spec_from_file_location("prop_" + os.path.basename(_p)[:-3], _p)
    _m = importlib.util.module_from_spec(_spec)
    _spec.loader.exec_module(_m)
    PROPERTIES[_m.PROP["id"]] = _m.PROP
