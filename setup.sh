#!/bin/sh
# Run once after a fresh restore, offline: warms the Go build cache by compiling every harness binary.
cd "$(dirname "$0")"
mkdir -p work evidence replays
if command -v python3-vt >/dev/null 2>&1; then PY=python3-vt; else PY=python3; fi
$PY lib/driver.py --warm
exit 0
